"""C24 — JSON dump and parse round-trip every value (DESIGN.md 5/C24)."""
import os, random, re, struct
from vlib import common as C

PROP = "C24"
CHECKER = "make -C /verif/coq -k C24/Properties_C24.vo C24/Extract.vo  (coqc 8.16.1, full .vo)"
TRUSTED = [
    "Coq 8.16.1 kernel incl. vm_compute; no native_compute",
    "hand transcription of json::dumpToString/load*/operator== (src/types/json.cpp, include/occa/types/json.hpp), "
    "primitive::toString/load (src/types/primitive.cpp), parseInt/parseBinary (src/occa/internal/utils/string.cpp), "
    "lex::skip* into coq/C24/Model.v, tied by the differential run of this check",
    "floats are abstract in the theorems (hypotheses: printed text has the shape [-]d.d+e[+-]d+ and reading it back gives the "
    "same datum); the tie instantiates them with OCaml printf %.8e/%.16e and float_of_string on the longest numeric prefix",
    "extraction (ExtrOcamlBasic only) + extract/C24/driver.ml + extract/zutil.ml",
    "drivers/C24.cpp (ASan+UBSan library) and drivers/C24h.cpp (plain library, hash observations only: occa::hash has a signed "
    "overflow that belongs to C27 and would stop every UBSan run)",
    "g++ 12 / ASan as the observer of reads past the terminating NUL in the parser",
]

META = dict(
    level="Coq theorems: for every well-formed JSON tree (any nesting, any bytes except NUL in strings and non-empty keys, every "
          "integer kind with every value of its range, booleans, null, finite floats through an abstract print/read interface) and "
          "every indentation, the modelled json::load applied to the modelled json::dump returns, with explicit sufficient fuel, "
          "exactly the tree `reparsed v`, which json::operator== (modelled) and, for integers that fit the signed type of their "
          "width, mathematical equality identify with v; dumps do not depend on insertion order and hash = H(dump). The model "
          "(byte-level dump, load, primitive::load/toString, parseInt) is tied to the C++ by running the extracted model and the "
          "real library on the same trees and on malformed texts and comparing dump bytes, parse trees (types, values, source "
          "text, consumed length), equality and errors.",
    note="Trusted: Coq kernel; the hand model (tie is differential, seeded); float print/read hypotheses; extraction; drivers. "
         "Known findings: NUL bytes, empty keys, unsigned values above the signed maximum of their width.",
    technique="Coq structural-induction proof over JSON trees with explicit parser fuel + extracted-model/implementation "
              "differential correspondence",
    design_ref="DESIGN.md section 5, C24")

# --------------------------------------------------------------------------- generator
KINDS = {"i8": (-2**7, 2**7 - 1), "u8": (0, 2**8 - 1), "i16": (-2**15, 2**15 - 1), "u16": (0, 2**16 - 1),
         "i32": (-2**31, 2**31 - 1), "u32": (0, 2**32 - 1), "i64": (-2**63, 2**63 - 1), "u64": (0, 2**64 - 1)}
SPECIAL_BYTES = [0x22, 0x5c, 0x08, 0x0c, 0x0a, 0x0d, 0x09, 0x2f, 0x27, 0x3a, 0x2c, 0x7b, 0x7d, 0x5b, 0x5d, 0x20, 0x75,
                 0x6e, 0x62, 0x01, 0x7f, 0x80, 0xff, 0xe9, 0x0b]
SRC_TEXTS = ["5L", "12", "0x1F", "1.5", "7u", "1e3f", "-3", "0b101", "99UL", "2.5e-3", "true"]


def hexs(bs):
    return "".join("%02x" % b for b in bs)


def gen_bytes(rng, lo, hi, nul=0.0):
    n = rng.randint(lo, hi)
    out = []
    for _ in range(n):
        x = rng.random()
        if x < nul:
            out.append(0)
        elif x < 0.35:
            out.append(rng.choice(SPECIAL_BYTES))
        elif x < 0.85:
            out.append(rng.randint(0x61, 0x7a))
        else:
            out.append(rng.randint(1, 255))
    return out


def gen_int(rng):
    k = rng.choice(list(KINDS))
    lo, hi = KINDS[k]
    x = rng.random()
    if x < 0.35:
        v = rng.choice([lo, hi, lo + 1, hi - 1, 0, 1, -1 if lo < 0 else 2, (hi + 1) // 2, (hi + 1) // 2 - 1, (hi + 1) // 2 + 1])
    elif x < 0.6:
        v = rng.randint(-100 if lo < 0 else 0, 100)
    else:
        v = rng.randint(lo, hi)
    v = max(lo, min(hi, v))
    return "I%s:%d" % (k, v)


F32_SPECIAL = [0x00000000, 0x80000000, 0x3fc00000, 0x00000001, 0x7f7fffff, 0xff7fffff, 0x00800000, 0x3f800001, 0x7f800000,
               0xff800000, 0x7fc00000, 0x41200000, 0x3dcccccd]
F64_SPECIAL = [0x0000000000000000, 0x8000000000000000, 0x3ff8000000000000, 0x0000000000000001, 0x7fefffffffffffff,
               0xffefffffffffffff, 0x0010000000000000, 0x3ff0000000000001, 0x7ff0000000000000, 0xfff0000000000000,
               0x7ff8000000000000, 0x4024000000000000, 0x3fb999999999999a, 0x7e37e43c8800759c]


def gen_float(rng):
    if rng.random() < 0.5:
        if rng.random() < 0.4:
            b = rng.choice(F32_SPECIAL)
        else:
            b = rng.getrandbits(32)
            if (b >> 23) & 0xff == 0xff:      # keep inf/nan to the special list (sign of nan is printed differently)
                b &= 0x7f7fffff
        return "F32:%08x" % b
    if rng.random() < 0.4:
        b = rng.choice(F64_SPECIAL)
    else:
        b = rng.getrandbits(64)
        if (b >> 52) & 0x7ff == 0x7ff:
            b &= 0x7fefffffffffffff
    return "F64:%016x" % b


def gen_tree(rng, depth, opts):
    x = rng.random()
    if depth <= 0:
        x = x * 0.7
    if x < 0.05:
        return ["Z"]
    if x < 0.12:
        return [rng.choice(["B0", "B1"])]
    if x < 0.38:
        t = gen_int(rng)
        if rng.random() < opts["src"]:
            t += "@" + hexs(rng.choice(SRC_TEXTS).encode())
        return [t]
    if x < 0.48:
        t = gen_float(rng)
        if rng.random() < opts["src"]:
            t += "@" + hexs(rng.choice(SRC_TEXTS).encode())
        return [t]
    if x < 0.68:
        return ["S:" + hexs(gen_bytes(rng, 0, 8, nul=opts["nul"]))]
    if x < 0.7 and rng.random() < opts["none"] * 10:
        return ["N"]
    if x < 0.84:
        out = ["["]
        for _ in range(rng.choice([0, 1, 1, 2, 2, 3, 4])):
            out += gen_tree(rng, depth - 1, opts)
        return out + ["]"]
    out = ["{"]
    for _ in range(rng.choice([0, 1, 1, 2, 2, 3, 4])):
        if rng.random() < opts["emptykey"]:
            k = []
        else:
            k = gen_bytes(rng, 1, 5, nul=opts["nul"])
        out.append("K:" + hexs(k))
        if rng.random() < opts["none"]:
            out.append("N")
        else:
            out += gen_tree(rng, depth - 1, opts)
    return out + ["}"]


def gen_tcase(rng, tier):
    opts = dict(nul=0.0, none=0.0, emptykey=0.0, src=0.0)
    x = rng.random()
    if x < 0.04:
        opts["nul"] = 0.1
    elif x < 0.07:
        opts["none"] = 0.1
    elif x < 0.09:
        opts["emptykey"] = 0.2
    elif x < 0.2:
        opts["src"] = 0.5
    indent = rng.choice([-1, 0, 0, 1, 2, 2, 3, 4, 7])
    depth = rng.choice([0, 1, 2, 2, 3, 3, 4, 5])
    return "T %d %s" % (indent, " ".join(gen_tree(rng, depth, opts)))


# ---- texts for the parser (not only dumps): loose JSON as json::load accepts it, and damaged variants
P_SEEDS = [
    '{"a": 1, "b": [1, 2, 3], "c": {"d": "e"}}', "{a: 1, b : 'x', }", "[1, 2, ]", "[ ]", "{ }", "{", "{  ", "[{", "[{ ", '{"a":{',
    "// c\n5", "[// c\n, 5]", "[1 // c\n,2]", "{a: // c\\\nd\n}", "/", "/*", "true", "false", "null", "nul", "tru", "truex", "falsey",
    "-", "-5", "- 5", "0x1F", "-0x5L", "0b101LU", "0b", "0x", "0xg", "017", "019", "0", "0L", "00", "1.5e3Z", "1e5f", "1e+", "1e", "1e5L",
    "1fe5", "1.2.3", "5.", "-.5", "-.", "1etrue", "1e0x5", "1e1e1e1", "12345678901234567890", "18446744073709551615L", "4294967296",
    "4294967295u", "-2147483649", "9223372036854775808L", "1u", "1lu", "1LL", "1ul", "1F", "1f", "1.0F", "1ef", "1e-5", "1E+5", "1e+05",
    '"a\\u0041\\n\\x"', '"\\u00g0"', '"\\u00', '"\\', '"abc', "'x'", "'a\"b'", '"a\'b"', '"a\\\nb"', '"\\b\\f\\n\\r\\t\\/\\\\\\""',
    '{"a":{},"b":[]}x', '{"a" 1}', '{"a":1 "b":2}', '{"":1}', "{:1}", '{"a":1,,}', "[1,,2]", "[1 2]", "[1", "[", "[,", '{"a":1', '{"a":',
    '{"a"', "{a", "{a:", "{a:1", "{a:1}", "{a\t:\n1\r,\vb\f:2}", '{"a":1,"a":2}', "{b:1,a:2,c:3}", " \t\n 5 ", "5 6", "", " ", "\x0b\x0c7",
    "[[[[[[1]]]]]]", '{"a":{"b":{"c":{"d":[{"e":1}]}}}}', "[true,false,null]", "[trueX]", '["a","b"]', "[1.5e+00f, 2.5000000000000000e+00]",
    "+5", ".5", "-true", "-false", "--5", "-+5", "1e--5", "0xFFFFFFFF", "0xFFFFFFFFFFFFFFFFFF", "-0x80", "0x7f", "0xff", "0xffff", "0x1ffffffffL",
    "0b11111111", "0b1111111", "-0b1", "0B1u", "0X1fU", "1uf", "1lf", "1e5u", "1.5L", "7UL", "1e5 ", "3,", "3]", "3}", "3\n",
]
P_ALPHABET = list(b'{}[],:"\'\\/ \n\t0123456789-+.eEfFlLuUxXbBtrunalse') + [0, 0x0b, 0x0c, 0x0d, 0x80, 0xff, 0x41, 0x67]
BAD_SIGN_WS = re.compile(rb"-[ \t\r\n\x0b\x0c]+[0-9.]")


def mutate(rng, b):
    b = bytearray(b)
    for _ in range(rng.choice([1, 1, 1, 2, 3])):
        op = rng.random()
        pos = rng.randint(0, len(b))
        if op < 0.35 and b:
            del b[min(pos, len(b) - 1)]
        elif op < 0.75:
            b.insert(pos, rng.choice(P_ALPHABET))
        elif b:
            b[min(pos, len(b) - 1)] = rng.choice(P_ALPHABET)
    return bytes(b)


def gen_loose(rng, depth):
    x = rng.random()
    ws = lambda: rng.choice(["", "", " ", "\n", "\t ", " // c\n" if rng.random() < 0.1 else ""])
    if depth <= 0 or x < 0.45:
        y = rng.random()
        if y < 0.5:
            sign = rng.choice(["", "", "-"])
            body = rng.choice(["0", "7", "12", "123456789", "4294967295", "4294967296", "9223372036854775807", "9223372036854775808",
                               "18446744073709551615", "18446744073709551616", "0x1f", "0XFF", "0b101", "017", "1.5", "2.", "1e3",
                               "1.5e-3", "1E+2", "00", "0.0"])
            sfx = rng.choice(["", "", "", "L", "U", "UL", "LL", "f", "F", "u", "l", "Lf"])
            return sign + body + sfx
        if y < 0.65:
            return rng.choice(["true", "false", "null"])
        q = rng.choice(['"', '"', "'"])
        s = "".join(rng.choice(["a", "b", " ", "\\n", "\\t", "\\\\", "\\\"", "\\'", "\\u00e9", "\\/", "\\x", "'", '"', "é", "\\b", "\\f", "\\r"])
                    for _ in range(rng.randint(0, 6)))
        s = s.replace(q, "")
        return q + s + q
    if x < 0.7:
        items = [gen_loose(rng, depth - 1) for _ in range(rng.randint(0, 3))]
        return "[" + ws() + ("," + ws()).join(items) + rng.choice(["", "", ","]) + ws() + "]"
    items = []
    for _ in range(rng.randint(0, 3)):
        k = rng.choice(["a", "b", "key", "k1", "a b"])
        k = rng.choice(['"%s"' % k, k.replace(" ", "_")])
        items.append(k + ws() + ":" + ws() + gen_loose(rng, depth - 1))
    return "{" + ws() + ("," + ws()).join(items) + rng.choice(["", "", ","]) + ws() + "}"


def gen_pcase(rng):
    x = rng.random()
    if x < 0.35:
        b = rng.choice(P_SEEDS).encode("utf8")
        if rng.random() < 0.6:
            b = mutate(rng, b)
    else:
        b = gen_loose(rng, rng.choice([0, 1, 2, 3])).encode("utf8")
        if rng.random() < 0.4:
            b = mutate(rng, b)
    if BAD_SIGN_WS.search(b):
        # "- 5.0": sscanf("%lf") fails and parseDouble returns an uninitialised double; nothing to compare
        b = BAD_SIGN_WS.sub(b"-5", b)
    return "P " + hexs(b)


# --------------------------------------------------------------------------- tree-aware shrinking
def parse_tokens(toks):
    """tokens -> nested python structure; raises ValueError on malformed input"""
    pos = 0

    def val():
        nonlocal pos
        if pos >= len(toks):
            raise ValueError
        t = toks[pos]
        pos += 1
        if t == "[":
            items = []
            while True:
                if pos >= len(toks):
                    raise ValueError
                if toks[pos] == "]":
                    pos += 1
                    return ("A", items)
                items.append(val())
        if t == "{":
            items = []
            while True:
                if pos >= len(toks):
                    raise ValueError
                if toks[pos] == "}":
                    pos += 1
                    return ("O", items)
                if not toks[pos].startswith("K:"):
                    raise ValueError
                k = toks[pos]
                pos += 1
                items.append((k, val()))
        if t in ("]", "}") or t.startswith("K:"):
            raise ValueError
        return ("L", t)
    v = val()
    if pos != len(toks):
        raise ValueError
    return v


def unparse(v):
    if v[0] == "L":
        return [v[1]]
    if v[0] == "A":
        out = ["["]
        for x in v[1]:
            out += unparse(x)
        return out + ["]"]
    out = ["{"]
    for k, x in v[1]:
        out += [k] + unparse(x)
    return out + ["}"]


def tree_size(v):
    if v[0] == "L":
        return 1 + (0 if v[1] == "Z" else len(v[1]))
    if v[0] == "A":
        return 2 + sum(tree_size(x) for x in v[1])
    return 2 + sum(len(k) + tree_size(x) for k, x in v[1])


def shrink_leaf(t):
    """smaller / more canonical variants of a leaf token (Z = null is the smallest value)"""
    out = []
    if t.startswith("K:"):
        h = t[2:]
        for i in range(0, len(h), 2):
            out.append(t[:2] + h[:i] + h[i + 2:])
        for i in range(0, len(h), 2):
            if h[i:i + 2] not in ("61", "00", "22", "5c"):
                out.append(t[:2] + h[:i] + "61" + h[i + 2:])
        return out
    if t != "Z":
        out.append("Z")
    if t.startswith("S:"):
        h = t[2:]
        for i in range(0, len(h), 2):
            out.append(t[:2] + h[:i] + h[i + 2:])
        for i in range(0, len(h), 2):
            if h[i:i + 2] not in ("61", "00", "22", "5c"):
                out.append(t[:2] + h[:i] + "61" + h[i + 2:])
    elif "@" in t:
        body, src = t.split("@")
        out.append(body)
        if body != "Ii32:0":
            out.append("Ii32:0@" + src)
        if src != "31":
            out.append(body + "@31")
    elif t.startswith("I"):
        k, v = t[1:].split(":")
        v = int(v)
        lo, hi = KINDS.get(k, (0, 0))
        for c in (0, 1, (hi + 1) // 2, v // 2):
            if c != v and lo <= c <= hi and abs(c) < abs(v):
                out.append("I%s:%d" % (k, c))
        if k != "i32" and -2**31 <= v < 2**31:
            out.append("Ii32:%d" % v)
    elif t.startswith("F"):
        out.append("Ii32:0")
    return out


def variants(v):
    """candidate smaller trees (children first: replacing a node by one of its subtrees, then deletions, then leaves)"""
    if v[0] == "A":
        for x in v[1]:
            yield x
        for i in range(len(v[1])):
            yield ("A", v[1][:i] + v[1][i + 1:])
        for i, x in enumerate(v[1]):
            for y in variants(x):
                yield ("A", v[1][:i] + [y] + v[1][i + 1:])
    elif v[0] == "O":
        for k, x in v[1]:
            yield x
        for i in range(len(v[1])):
            yield ("O", v[1][:i] + v[1][i + 1:])
        for i, (k, x) in enumerate(v[1]):
            for k2 in shrink_leaf(k):
                yield ("O", v[1][:i] + [(k2, x)] + v[1][i + 1:])
            for y in variants(x):
                yield ("O", v[1][:i] + [(k, y)] + v[1][i + 1:])
    else:
        for t in shrink_leaf(v[1]):
            yield ("L", t)


def shrink_case(case, fails_batch, rounds=40, width=80):
    """Greedy shrinking; `fails_batch(list of cases) -> list of bool` evaluates one round of candidates in a single
    run of the drivers."""
    toks = case.split()
    if not toks:
        return case
    if toks[0] == "P":
        b = bytes.fromhex(toks[1]) if len(toks) > 1 else b""
        for _ in range(rounds):
            cands = []
            for n in (max(1, len(b) // 2), max(1, len(b) // 4), 1):
                for i in range(0, len(b), n):
                    c = b[:i] + b[i + n:]
                    if c not in cands and len(c) < len(b):
                        cands.append(c)
            cands = cands[:width]
            if not cands:
                break
            res = fails_batch(["P " + c.hex() for c in cands])
            hit = [c for c, r in zip(cands, res) if r]
            if not hit:
                break
            b = min(hit, key=len)
        return "P " + b.hex()
    if toks[0] != "T" or len(toks) < 3:
        return case
    try:
        tree = parse_tokens(toks[2:])
    except ValueError:
        return case
    indent = toks[1]
    if indent != "0" and fails_batch(["T 0 " + " ".join(unparse(tree))])[0]:
        indent = "0"
    for _ in range(rounds):
        cands = []
        for cand in variants(tree):
            if tree_size(cand) < tree_size(tree):
                cands.append(cand)
            if len(cands) >= width:
                break
        if not cands:
            break
        res = fails_batch(["T %s %s" % (indent, " ".join(unparse(c))) for c in cands])
        hit = [c for c, r in zip(cands, res) if r]
        if not hit:
            break
        tree = min(hit, key=tree_size)
    return "T %s %s" % (indent, " ".join(unparse(tree)))


# --------------------------------------------------------------------------- known findings
def _hex_has_nul(h):
    return any(h[i:i + 2] == "00" for i in range(0, len(h), 2))


def sig_nul(case):
    return any((t.startswith("S:") or t.startswith("K:")) and _hex_has_nul(t[2:]) for t in case.split())


def sig_empty_key(case):
    return "K:" in case.split()


VARIANT = dict(lit_by_value=False, fmt_by_value=False)     # filled by detect_variant()


def sig_unsigned_above(case):
    for t in case.split():
        m = re.match(r"^I(u32|u64):(\d+)", t)
        if not m:
            continue
        if m.group(1) == "u64" and int(m.group(2)) > 2**63 - 1:
            return True
        if m.group(1) == "u32" and int(m.group(2)) > 2**31 - 1 and not VARIANT["lit_by_value"]:
            return True
    return False


def detect_variant(impl, env):
    """Which primitive::load is in the library under test: the pinned one (every unsuffixed literal is int32) or the one of
    fixes/C14-1 / C14-2 (literals typed by value)?  Two probes decide; the model has both variants and every theorem holds
    for each, so this selects, it does not weaken."""
    probes = ["P " + hexs(b"4294967296"), "P " + hexs(b"0x80000000")]
    out = C.run_impl_isolating([impl], probes, env=env)
    VARIANT["lit_by_value"] = out[0].startswith("R tree=Ii64:4294967296@")
    VARIANT["fmt_by_value"] = out[1].startswith("R tree=Iu32:2147483648@")
    os.environ["C24_LIT_BY_VALUE"] = "1" if VARIANT["lit_by_value"] else "0"
    os.environ["C24_FMT_BY_VALUE"] = "1" if VARIANT["fmt_by_value"] else "0"
    return dict(VARIANT, probe_outputs=out)


def sanitize(case):
    """the case with every known-finding trigger replaced by a benign value"""
    out = []
    for t in case.split():
        if t == "K:":
            t = "K:6b"
        elif t.startswith("S:") or t.startswith("K:"):
            h = t[2:]
            t = t[:2] + "".join("61" if h[i:i + 2] == "00" else h[i:i + 2] for i in range(0, len(h), 2))
        else:
            m = re.match(r"^I(u32|u64):(\d+)(.*)$", t)
            if m and (m.group(1) == "u64" or not VARIANT["lit_by_value"]):
                lim = 2**31 - 1 if m.group(1) == "u32" else 2**63 - 1
                t = "I%s:%d%s" % (m.group(1), int(m.group(2)) & lim, m.group(3))
        out.append(t)
    return " ".join(out)


SIGNATURES = {"string_contains_nul": sig_nul, "empty_key": sig_empty_key, "unsigned_above_signed_max": sig_unsigned_above}

_orig_load_known = C.load_known_findings


def _load_known(prop):
    """known_findings.txt plus the entries proposed in docs/notes/<prop>.known (same line format)"""
    res = _orig_load_known(prop)
    p = os.path.join(C.VERIF, "docs", "notes", prop + ".known")
    if os.path.exists(p):
        have = set(k["signature"] for k in res)
        for line in open(p):
            line = line.strip()
            if not line or line.startswith("#"):
                continue
            parts = [x.strip() for x in line.split("|")]
            if len(parts) >= 4 and parts[0] == prop and parts[1] not in have:
                res.append(dict(prop=parts[0], signature=parts[1], input=parts[2], what=" | ".join(parts[3:])))
    return res


def view(obs):
    """the part of an observation that the specification speaks about"""
    if obs.startswith("R dom=0"):
        return "R dom=0"
    if obs.startswith("R dom="):
        return obs.split(" dump=")[0]
    if obs.startswith("R CRASH") or obs.startswith("R BAD"):
        return obs
    return "R "


class Diff24(C.Differential):
    def eval(self, lines, parallel=True):
        I, R, S = super().eval(lines, parallel=parallel)
        out = []
        for c, i in zip(lines, I):
            if c.startswith("P") and i.startswith("R CRASH AddressSanitizer: heap-buffer-overflow"):
                i = "R OOB"          # the parser read past the terminating NUL (exact-size heap copy in the driver)
            elif c.startswith("P") and i.startswith("R CRASH"):
                i = "R P" + i[2:]
            out.append(i)
        return out, R, S


def nontrivial(case):
    t = case.split()
    if t[0] == "T":
        leaves = [x for x in t[2:] if x not in "[]{}" and not x.startswith("K:")]
        esc = any(x[:2] in ("S:", "K:") and re.search(r"(22|5c|08|0c|0a|0d|09)", x[2:]) for x in t[2:])
        return len(leaves) >= 2 and (esc or any(x[0] in "IF" for x in leaves))
    return len(t) > 1 and len(t[1]) >= 6


def setup():
    C.build_lib("asan")
    C.build_driver("C24", flavour="asan")
    C.build_lib("plain")
    C.build_driver("C24h", flavour="plain")


def run(run, tier, seed, replay_case=None):
    C.load_known_findings = _load_known
    C.build_lib("asan")
    impl = C.build_driver("C24", flavour="asan")
    C.build_lib("plain")
    himpl = C.build_driver("C24h", flavour="plain")
    pr = C.coq_properties(PROP, extra_targets=["C24/Extract.vo"])
    run.add_proof(pr, CHECKER)
    run.coverage["trusted_base"] = TRUSTED
    model = C.build_model(PROP)

    rng = random.Random(seed * 7919 + 24)
    corpus = C.load_corpus(PROP)
    nt, np_ = (1300, 1000) if tier == "quick" else (12000, 9000)
    cases = list(corpus) + ["P " + hexs(s.encode("utf8")) for s in P_SEEDS]
    cases += [gen_tcase(rng, tier) for _ in range(nt)] + [gen_pcase(rng) for _ in range(np_)]
    if replay_case is not None:
        cases = [replay_case]
    env = dict(C.lib_env("asan"))
    # reads past the terminating NUL are expected on some malformed texts (model: Oob); without symbolisation the
    # sanitizer report costs milliseconds instead of seconds
    # (the driver turns such a read into "R OOB" through a guard page and a SIGSEGV handler; leaving libocca through
    # siglongjmp skips destructors, so leak checking is off for this check: leaks are not what C24 is about)
    env["ASAN_OPTIONS"] += ":symbolize=0:detect_leaks=0"
    run.coverage["primitive_load_variant"] = detect_variant(impl, env)
    D = Diff24(run, PROP, [impl], model, env, view=view, signatures=SIGNATURES, keep_first=2,
               model_desc="coq/C24/Model.v vs src/types/json.cpp, src/types/primitive.cpp")
    I, R, S = D.eval(cases)

    # Tree-aware shrinking of the cases on which the implementation misses the specification (the framework's
    # token deletion would produce unbalanced trees).  Cases are grouped by the known-finding signatures their
    # text matches and by what failed; a few per group are shrunk.  So that a known finding cannot hide another
    # failure in the same case, every remaining case is re-run with the known-finding triggers replaced by benign
    # values (one batch): a case that still fails is shrunk as well.
    fails = [i for i in range(len(cases)) if D.fails_spec(I[i], S[i])]
    seen = {}

    def sigs_of(c):
        return set(n for n, f in SIGNATURES.items() if f(c))

    def still_for(orig):
        """a candidate must still fail and must not pick up a known-finding trigger the original did not have
        (an unescaped-key failure must not slide into the empty-key finding while its key is being shortened)"""
        base = sigs_of(orig)

        def still(cs):
            i1, r1, s1 = D.eval(cs, parallel=False)
            return [D.fails_spec(a, b) and sigs_of(c) <= base for c, a, b in zip(cs, i1, s1)]
        return still
    groups = {}
    for i in fails:
        key = (tuple(sorted(n for n, f in SIGNATURES.items() if f(cases[i]))), view(I[i]))
        groups.setdefault(key, []).append(i)
    per_group, rest = [], []
    for key, idx in groups.items():
        keep = 1 if key[0] else 6
        per_group.append(idx[:keep])
        rest += idx[keep:]
    # round-robin over the groups, so that the bound on shrinking never drops a whole group
    to_shrink = [g[n] for n in range(6) for g in per_group if n < len(g)]
    independent = []        # cases that fail for a reason other than the known-finding triggers they contain
    if rest:
        san = [sanitize(cases[i]) for i in rest]
        i1, r1, s1 = D.eval(san, parallel=len(san) > 40)
        for j, i in enumerate(rest):
            if D.fails_spec(i1[j], s1[j]):
                cases[i], I[i], R[i], S[i] = san[j], i1[j], r1[j], s1[j]
                independent.append(i)
        to_shrink = independent[:6] + to_shrink
    for n, i in enumerate(to_shrink):
        if n >= 14:
            break
        small = shrink_case(cases[i], still_for(cases[i]))
        if small != cases[i]:
            i1, r1, s1 = D.eval([small], parallel=False)
            cases[i], I[i], R[i], S[i] = small, i1[0], r1[0], s1[0]
        seen[small] = seen.get(small, 0) + 1
    run.coverage["failing_cases"] = dict(total=len(fails), groups=len(groups), shrunk=min(len(to_shrink), 14))
    # every group of failing cases is judged through its shrunk representatives
    keep = set(to_shrink[:14]) | set(g[0] for g in per_group)      # a group beyond the bound goes in unshrunk
    sel = [i for i in range(len(cases)) if i in keep or not D.fails_spec(I[i], S[i])]
    D.judge([cases[i] for i in sel], [I[i] for i in sel], [R[i] for i in sel], [S[i] for i in sel],
            proof_failures=pr["failures"], shrink=False)
    run.coverage["evaluations"] = len(cases)

    # hash observations on the plain library: same hash whatever the insertion order; hash = hash(dump(0))
    tcases = [c for c in cases if c.startswith("T ")]
    if tcases:
        H = C.run_impl_parallel([himpl], tcases, env=C.lib_env("plain"))
        badh = [(c, h) for c, h in zip(tcases, H) if h not in ("R deth=1 hd0=1", "R BAD")]
        for c, h in badh[:3]:
            run.violation("hash: " + c, "property C24 (equal values have equal hashes; json::hash is the hash of the compact dump) "
                          "fails on the implementation built from /repo\ncase: %s\nimplementation (drivers/C24h.cpp): %s\n"
                          "required: R deth=1 hd0=1\n" % (c, h))
        run.coverage["hash_cases"] = len(tcases)

    distinct = set(c for c in cases if nontrivial(c))
    cov = run.coverage
    cov["distinct_nontrivial"] = len(distinct)
    cov["rule"] = ("T cases: seeded random JSON trees (depth <= 5, width <= 4; every integer kind with extreme and random values, "
                   "booleans, null, binary32/64 from bit patterns incl. subnormals/extremes, strings and keys over quote/backslash/"
                   "control/high bytes; sub-streams with NUL bytes, none nodes, empty keys, parsed-then-assigned numbers), indent in "
                   "{-1,0,1,2,3,4,7}; P cases: hand-written loose-JSON texts, grammar-generated loose JSON and byte mutations of both. "
                   "non-trivial = T case with >= 2 leaves and a number or an escaped byte, or P case of >= 3 bytes; distinct = distinct case text")
    pick = [0, len(cases) // 3, len(cases) - 1]
    cov["samples"] = [dict(case=cases[i], impl=I[i][:300], model=R[i][:300], spec=S[i]) for i in pick if i < len(cases)]
    cov["case_mix"] = dict(T=len(tcases), P=len(cases) - len(tcases))
    cov["failing_cases_shrunk"] = seen
    run.assumptions = ["the oracle's domain (in_domain) excludes uninitialised (none) nodes and non-finite floats: JSON has no text for them",
                       "parsed texts avoid '-' followed by white space and a digit (parseDouble returns an uninitialised double there)",
                       "hash observations are taken from the un-sanitised library build"]


def replay(run, path):
    case = C.replay_case_from_file(path)
    if case is None:
        print("no case in replay file")
        return 2
    globals()["run"](run, "quick", run.seed, replay_case=case)
    for s in run.coverage.get("samples", [])[:1]:
        print("replayed: %s\nimplementation: %s\nmodel:          %s\nspecification:  %s" % (s["case"], s["impl"], s["model"], s["spec"]))
    return run.finish()
