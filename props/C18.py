"""C18 — @tile covers the original loop's iterations exactly once (DESIGN.md 5/C18)."""
import os, random, re
from vlib import common as C
from props import C17 as G

PROP = "C18"
CHECKER = "make -C /verif/coq -k C18/Properties_C18.vo C18/Extract.vo  (coqc 8.16.1, full .vo)"
TRUSTED = [
    "Coq 8.16.1 kernel incl. vm_compute; no native_compute",
    "hand transcription of attributes::tile::setupBlockForStatement / setupInnerForStatement / setupCheckStatement "
    "(tile.cpp) into coq/C18/Model.v, tied by token-for-token comparison of the emitted for/if statements of all seven "
    "translators with the model's trees (Expr.print)",
    "coq/C17/Expr.v parse = C operator precedence (cross-checked by compiling the emitted text with g++)",
    "tools/C18_emit.py + tools/C17_emit.py (statement extraction, tokeniser, thread-index table), drivers/C17.cpp",
    "extraction (ExtrOcamlBasic only) + extract/C18/driver.ml (assembles the text of a for statement from the operand "
    "texts) + extract/C17/common.ml",
    "g++ 12 -fsanitize=undefined running the Serial/OpenMP translations and emulating the launch for "
    "@tile(T, @outer, @inner)",
]

META = dict(
    level="Coq theorems: for every OKL loop header whose update moves towards its bound (any operand expressions, 4 "
          "comparisons, both operand orders, ++ -- += -=), every tile-size expression and every environment with positive "
          "step and tile size, the block loop, inner loop and `if` that @tile builds (operands re-read from their printed "
          "text with C precedence) execute the body for exactly the original loop's iterator values in the same order "
          "(check=true), and also without the `if` when the iteration count is a multiple of the tile size; the arithmetic "
          "core is stated over progressions for reuse by C23. Tied to tile.cpp by comparing the emitted statements of all "
          "seven translators token for token with the model's and by running the Serial/OpenMP translations and an "
          "emulated launch.",
    note="Needs fixes/C18-1 (inner bound = block step, parenthesised) and, for rejected headers, fixes/C17-2; the pinned "
         "variant is refuted in Coq. nested @tile float-up (floatOuterLoopUp) is not modelled.",
    technique="Coq proof (block decomposition of arithmetic progressions) + syntactic translation validation of emitted "
              "source + compiled execution",
    design_ref="DESIGN.md section 5, C18")


def gen_tile(rng):
    x = rng.random()
    if x < 0.4:
        return [str(rng.choice([1, 2, 3, 4, 5]))]
    if x < 0.55:
        return ["M", "+", "1"]
    if x < 0.65:
        return ["Q", "+", str(rng.choice([1, 2]))]
    if x < 0.75:
        return ["(", "N", "&", "3", ")", "+", "1"]
    if x < 0.85:
        return ["N", "?", "2", ":", "3"]
    if x < 0.92:
        return ["2", "*", "Q"]
    return ["1", "<<", "Q"]


def gen_case(rng, tier):
    var = rng.choice(["A", "A", "B", "B", "N"])
    check = "1" if rng.random() < 0.7 else "0"
    t = ["TL", var, check]
    for _ in range(3):
        t += ["env", str(rng.randint(0, 12)), str(rng.randint(0, 9)), str(rng.randint(0, 6)), str(rng.randint(1, 3))]
    for _ in range(2 if var == "N" else 1):
        t += ["T"] + gen_tile(rng)
        t += G.gen_loop(rng, tier, small=True)
    return " ".join(t)


def exhaustive_shapes():
    cases = []
    for cmp_ in ("lt", "le", "gt", "ge"):
        for side in ("L", "R"):
            asc = (cmp_ in ("lt", "le")) == (side == "L")
            for upd in ("inc", "pinc", "dec", "pdec", "add", "sub"):
                for tile in (["3"], ["M", "+", "1"]):
                    for check in ("1", "0"):
                        var = "A" if (len(cases) % 2 == 0) else "B"
                        init = ["N", "+", "7"] if not asc else ["N", "-", "2"]
                        bound = ["M", "-", "1"] if not asc else ["M", "+", "6"]
                        t = ["TL", var, check, "env", "5", "2", "0", "1", "env", "2", "3", "1", "2", "env", "9", "1", "3", "3"]
                        t += ["T"] + tile + ["loop", cmp_, side, upd, "i"] + init + ["b"] + bound
                        if upd in ("add", "sub"):
                            t += ["s", "Q"]
                        cases.append(" ".join(t))
    return cases


def simplifications(case):
    t = case.split()
    if len(t) < 4 or t[0] != "TL" or "T" not in t or "loop" not in t:
        return []
    if t[1] == "N":
        # a nested pair: each loop alone, with the same environments
        idx = [k for k, x in enumerate(t) if x == "T"]
        if len(idx) != 2:
            return []
        head = t[3:idx[0]]
        return [" ".join(["TL", "A", t[2]] + head + t[idx[0]:idx[1]]),
                " ".join(["TL", "A", t[2]] + head + t[idx[1]:])] + \
               [" ".join(["TL", "N", t[2]] + e + t[idx[0]:])
                for e in [head[k:k + 5] for k in range(0, len(head), 5)] if len(head) > 5]
    out = []
    iT, iL = t.index("T"), t.index("loop")
    head, tile, loop = t[3:iT], t[iT + 1:iL], t[iL + 1:]
    envs, cur = [], None
    for x in head:
        if x == "env":
            cur = []
            envs.append(cur)
        elif cur is not None:
            cur.append(x)

    def build(var, chk, envs_, tile_, loop_):
        s = ["TL", var, chk]
        for e in envs_:
            s += ["env"] + e
        return " ".join(s + ["T"] + tile_ + ["loop"] + loop_)
    if len(envs) > 1:
        for e in envs:
            out.append(build(t[1], t[2], [e], tile, loop))
    if t[1] == "A":
        out.append(build("B", t[2], envs, tile, loop))
    for repl in (["2"], ["3"], ["4"]):
        if tile != repl:
            out.append(build(t[1], t[2], envs, repl, loop))
    for sec, repl in (("i", ["0"]), ("i", ["N"]), ("b", ["M"]), ("b", ["9"]), ("s", ["2"])):
        if sec in loop:
            a = loop.index(sec)
            b = a + 1
            while b < len(loop) and loop[b] not in ("i", "b", "s"):
                b += 1
            if loop[a + 1:b] != repl:
                out.append(build(t[1], t[2], envs, tile, loop[:a + 1] + repl + loop[b:]))
    seen, res = set(), []
    for c in out:
        if c != case and c not in seen:
            seen.add(c)
            res.append(c)
    return res


def nontrivial(case, s_obs):
    if not s_obs.startswith("S V "):
        return False
    vals = [v.strip() for v in s_obs[4:].split(";")]
    return any(len(v.split()) >= 2 and v not in ("OOS", "HUGE", "UB", "NOFUEL") for v in vals)


def impl_cmd():
    return ["python3", os.path.join(C.VERIF, "tools", "C18_emit.py"), C.build_driver("C17", flavour="asan")]


def build_model():
    return C.build_model(PROP, extra_ml=[os.path.join(C.VERIF, "extract", "C17", "common.ml")])


def coq():
    return C.coq_properties(PROP, dirs=["C18", "C17", "lib"], extra_targets=["C18/Extract.vo"])


def setup():
    C.build_lib("asan")
    C.build_driver("C17", flavour="asan")
    coq()
    build_model()


def run(run, tier, seed, replay_case=None):
    C.build_lib("asan")
    cmd = impl_cmd()
    pr = coq()
    run.add_proof(pr, CHECKER)
    run.coverage["trusted_base"] = TRUSTED
    model = build_model()
    rng = random.Random(seed * 7919 + 18)
    corpus = C.load_corpus(PROP)
    ex = exhaustive_shapes()
    if tier == "quick":
        cases = list(corpus) + random.Random(seed).sample(ex, 70) + [gen_case(rng, tier) for _ in range(260)]
    else:
        cases = list(corpus) + ex + [gen_case(rng, tier) for _ in range(2000)]
    if replay_case is not None:
        cases = [replay_case]
    cases, I, R, S = G.run_generic(run, PROP, cases, cmd, model, pr, simplifications,
                                   "coq/C18/Model.v vs attributes/tile.cpp (emitted statements)", replay_case)
    cov = run.coverage
    cov["distinct_nontrivial"] = len(set(c for c, s in zip(cases, S) if nontrivial(c, s)))
    cov["rule"] = ("one tiled loop per kernel, as @tile(T, @outer, @inner) (A) or as a plain @tile(T) loop inside a "
                   "one-iteration @outer/@inner nest (B), or two nested @tile(T, @outer, @inner) loops whose @outer "
                   "loops tile.cpp floats up (N, ~20%); check=true ~70% / check=false ~30%; headers as in C17 (4 "
                   "comparisons x 2 operand orders x 6 updates, operand expressions of every operator class, ~10% with the "
                   "update moving away from the bound); tile sizes 1-5, M + 1, Q + k, (N & 3) + 1, N ? 2 : 3, 2 * Q, "
                   "1 << Q; 3 environments each; plus an enumerated batch of all 48 header shapes x 2 tile sizes x check; "
                   "non-trivial = some environment visits at least two iterations; distinct = distinct case text")
    k = len(cases)
    cov["samples"] = [dict(case=cases[i], impl=I[i], model=R[i], spec=S[i]) for i in sorted(set([0, k // 2, k - 1]))]
    cov["rejected_by_translator"] = sum(1 for x in I if x == "R ERR")
    cov["check_false_cases"] = sum(1 for c in cases if c.split()[2:3] == ["0"])
    run.assumptions = [
        "operands and the tile size do not mention the iterator; iterator type int; no overflow",
        "step and tile size positive at run time (other environments are marked OOS on all sides)",
        "check=false with an iteration count that is not a multiple of the tile size: nothing is required; the "
        "specification side then repeats the model's values, so only the correspondence is checked",
        "nested @tile (floatOuterLoopUp) is checked on the emitted statement order and by running the Serial/OpenMP "
        "translations; the Coq model describes one tiled loop, nests are products of independent loops",
    ]


def replay(run, path):
    case = C.replay_case_from_file(path)
    if case is None:
        print("no case in replay file")
        return 2
    globals()["run"](run, "quick", run.seed, replay_case=case)
    for s in run.coverage.get("samples", [])[:1]:
        print("replayed: %s\nimplementation: %s\nmodel:          %s\nspecification:  %s" % (s["case"], s["impl"], s["model"], s["spec"]))
    return run.finish()
