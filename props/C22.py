"""C22 — every backend enforces the same OKL rules (DESIGN.md 5/C22)."""
import os, random, re
from vlib import common as C

PROP = "C22"
CHECKER = "make -C /verif/coq -k C22/Properties_C22.vo C22/Extract.vo  (coqc 8.16.1, full .vo)"
TRUSTED = [
    "Coq 8.16.1 kernel incl. vm_compute (witnesses and Examples only); no native_compute",
    "hand transcription of okl.cpp / oklForStatement.cpp / statementArray.cpp (iterateStatement) / array.tpp (startsWith) "
    "into coq/C22/Model.v, tied by the differential run of this check",
    "extraction (ExtrOcamlBasic only) + extract/C22/driver.ml: token list -> kernel tree (normalisation) and the "
    "pretty-printer kernel tree -> OKL source (the same OCaml value feeds the model and the printer)",
    "drivers/C22.cpp: parser_t::parseSource + succeeded() of the seven translators, in-process",
    "g++ 12; the asan flavour (ASan+UBSan) on a sample of the cases as observer of memory errors in the translators",
]

META = dict(
    level="Coq theorem checker_iff_rules: for every kernel tree (unbounded: any nesting of for/if/else/while/switch/block, "
          "any placement of @outer/@inner/@shared/@exclusive/break/continue, any loop header shape) the transcribed "
          "okl::kernelIsValid (DFS path list, reverse + startsWith filter, per-outermost-@outer count comparison, "
          "upward walks) accepts exactly the kernels that follow the structural OKL rules; refutation theorems for the "
          "six places where the pinned source accepts a rule-breaking kernel or dies. That all seven translators apply "
          "this checker (and nothing stricter) is the differential tie: generated valid kernels and their single-rule "
          "mutations through serial/openmp/cuda/hip/opencl/metal/dpcpp parsers, success flags compared with the "
          "extracted model and the rule oracle.",
    note="Trusted: Coq kernel; hand model of the checker; OCaml printer from trees to OKL text; drivers. Not modelled: "
         "the generic C parser, @tile/@dim expansion, attribute argument validation, code generation after validation.",
    technique="Coq proof (structural induction over kernel trees) + extracted-model/implementation differential correspondence",
    design_ref="DESIGN.md section 5, C22")

MODES = ["serial", "openmp", "cuda", "hip", "opencl", "metal", "dpcpp"]

# ------------------------------------------------------------------------------- trees
# a node is [code, [kids]]; flattening gives the depth-prefixed token list of extract/C22/driver.ml


def N(code, kids=None):
    return [code, list(kids or [])]


def flatten(kernels):
    toks = []

    def go(n, d):
        toks.append("%d:%s" % (d, n[0]))
        for k in n[1]:
            go(k, d + 1)
    for k in kernels:
        go(k, 0)
    return " ".join(toks)


def walk(n, f, parent=None):
    f(n, parent)
    for k in n[1]:
        walk(k, f, n)


def nodes(kernel):
    res = []
    walk(kernel, lambda n, p: res.append((n, p)))
    return res


def clone(n):
    return [n[0], [clone(k) for k in n[1]]]


INT_TYPES = "iiiiicslzpu"


def valid_header(rng, plain_bias=0.5):
    """A header that follows the rules, direction-consistent, non-empty when constant."""
    if rng.random() < plain_bias:
        return ""
    up = rng.random() < 0.65
    incl = rng.random() < 0.3
    right = rng.random() < 0.25
    if up:
        op = ("le" if incl else "lt") if not right else ("ge" if incl else "gt")
    else:
        op = ("ge" if incl else "gt") if not right else ("le" if incl else "lt")
    side = "R" if right else "L"
    a = rng.choice([0, 0, 1, 2, 5, -3, "n"])
    bconst = rng.random() < 0.6
    x = rng.random()
    if x < 0.55:
        upd = "U%d,%s,1" % (rng.randint(0, 1), "inc" if up else "dec")
        step = 1
    else:
        step = rng.choice([1, 2, 3, 7, "n"])
        upd = "B%s,L,%s" % ("add" if up else "sub", step)
    if a == "n" or not bconst:
        b = "n" if (a == "n" or rng.random() < 0.8) else rng.randint(-2, 9)
        if a != "n" and b != "n":
            pass
    else:
        span = rng.randint(1, 9)
        # span = (b - a) (+1 if inclusive) for up, (a - b) (+1) for down
        d = span - (1 if incl else 0)
        if d < 1 and not incl:
            d = 1
        b = a + d if up else a - d
        if incl and d == 0:
            b = a
    if a != "n" and b != "n":
        sp = ((b - a) if up else (a - b)) + (1 if incl else 0)
        if sp <= 0:
            b = a + 3 if up else a - 3
    return "/D0,1,%s,%s/B%s,%s,%s/%s" % (rng.choice(INT_TYPES), a, op, side, b, upd)


INVALID_HEADERS = [
    # (name, header) — each breaks exactly the header rule
    ("init_empty", "//Blt,L,4/U1,inc,1"),
    ("init_expr", "/X/Blt,L,4/U1,inc,1"),
    ("init_two_decls", "/D1,1,i,0/Blt,L,4/U1,inc,1"),
    ("init_no_value", "/D0,0,i,0/Blt,L,4/U1,inc,1"),
    ("init_float", "/D0,1,f,0/Blt,L,4/U1,inc,1"),
    ("init_double", "/D0,1,d,0/Blt,L,n/U0,inc,1"),
    ("check_empty", "/D0,1,i,0//U1,inc,1"),
    ("check_nonbinary", "/D0,1,i,0/N/U1,inc,1"),
    ("check_ne", "/D0,1,i,0/Bne,L,4/U1,inc,1"),
    ("check_eq", "/D0,1,i,0/Beq,R,4/U1,inc,1"),
    ("check_other_var", "/D0,1,i,0/Blt,N,4/U1,inc,1"),
    ("update_empty", "/D0,1,i,0/Blt,L,4/"),
    ("update_other_expr", "/D0,1,i,0/Blt,L,4/X"),
    ("update_neg", "/D0,1,i,0/Blt,L,4/U1,neg,1"),
    ("update_other_var", "/D0,1,i,0/Blt,L,4/U1,inc,0"),
    ("update_other_var_post", "/D0,1,i,0/Blt,L,n/U0,inc,0"),
    ("update_mul", "/D0,1,i,0/Blt,L,4/Bmul,L,2"),
    ("update_binary_other_var", "/D0,1,i,0/Blt,L,4/Badd,N,2"),
    ("update_rhs_iterator", "/D0,1,i,0/Blt,L,n/Badd,R,n"),
    ("update_rhs_iterator_const", "/D0,1,i,0/Blt,L,n/Badd,R,2"),
    ("step_zero", "/D0,1,i,0/Blt,L,4/Badd,L,0"),
    ("step_zero_nonconst_bound", "/D0,1,i,0/Blt,L,n/Badd,L,0"),
    ("step_zero_down", "/D0,1,i,9/Bgt,L,4/Bsub,L,0"),
    ("step_negative", "/D0,1,i,0/Blt,L,4/Badd,L,-1"),
    ("step_negative_nonconst", "/D0,1,i,n/Blt,L,n/Badd,L,-2"),
    ("range_empty", "/D0,1,i,0/Blt,L,0/U1,inc,1"),
    ("range_negative", "/D0,1,i,4/Blt,L,2/U1,inc,1"),
    ("range_empty_down", "/D0,1,i,2/Bgt,L,2/U1,dec,1"),
    ("range_empty_step", "/D0,1,i,3/Ble,L,2/Badd,L,2"),
]


def filler(rng, in_inner, scope_vars, depth=0):
    """Statements that never matter for the rules: other statements, plain variables, regular loops with
    break/continue inside, switch with break, while loops."""
    x = rng.random()
    if x < 0.35:
        return N("O")
    if x < 0.45:
        return N("Dp" + rng.choice(["", "c", "n"]))
    if x < 0.55:
        return N("Up")
    if x < 0.7 and depth < 2:
        body = [N(rng.choice(["b", "c"])) if rng.random() < 0.6 else N("O")]
        if rng.random() < 0.4:
            body = [N("I", body + ([N("E", [N(rng.choice(["b", "c", "O"]))])] if rng.random() < 0.5 else []))]
        kind = rng.choice(["Fn", "Fn", "W", "w"])
        if kind == "Fn" and rng.random() < 0.3:
            kind += rng.choice(INVALID_HEADERS)[1] if rng.random() < 0.5 else valid_header(rng, 0)
        return N(kind, body)
    if x < 0.8 and depth < 2:
        # break in a switch is fine anywhere; continue in a switch only inside a regular loop
        return N("S", [N("O"), N("b")])
    if x < 0.85 and depth < 2:
        return N("Fn", [N("S", [N("c"), N("b")])])
    if x < 0.92 and in_inner and scope_vars:
        return N("U" + rng.choice(scope_vars))
    return N("B", [N("O")])


def wrap(rng, node):
    """Optionally put a neutral container around a node (nesting of OKL loops through regular statements)."""
    x = rng.random()
    if x < 0.62:
        return node
    if x < 0.72:
        return N("I", [node])
    if x < 0.78:
        return N("B", [node])
    if x < 0.84:
        return N("Fn" + valid_header(rng), [node])
    if x < 0.88:
        return N("W", [node])
    if x < 0.91:
        return N("w", [node])
    if x < 0.94:
        return N("S", [node])
    return N("I", [N("O"), N("E", [node])])


def gen_inner(rng, b, vars_, size):
    """An @inner nest of depth b (every maximal path has exactly b inner loops)."""
    body = []
    if b == 1:
        for _ in range(rng.randint(0, 2)):
            body.append(filler(rng, True, vars_))
        if vars_ and rng.random() < 0.7:
            body.append(N("U" + rng.choice(vars_)))
    else:
        nsub = 1 if rng.random() < 0.7 or size[0] >= size[1] else 2
        for _ in range(nsub):
            if rng.random() < 0.3:
                body.append(filler(rng, True, vars_))
            body.append(wrap(rng, gen_inner(rng, b - 1, vars_, size)))
    size[0] += 1
    return N("Fi" + valid_header(rng), body)


def gen_outer(rng, a, b, vars_, size):
    """An @outer nest: a outer loops then b inner loops on every maximal path."""
    body = []
    vars_ = list(vars_)
    # declarations between @outer and @inner
    for _ in range(rng.choice([0, 0, 1, 1, 2])):
        k = rng.choice("se")
        dims = rng.choice(["c", "c", "cc", "ccc"]) if k == "s" else rng.choice(["", "", "c", "n"])
        body.append(N("D" + k + dims))
        vars_.append(k)
    nsub = 1 if rng.random() < 0.6 or size[0] >= size[1] else rng.choice([2, 2, 3])
    for j in range(nsub):
        if rng.random() < 0.25:
            body.append(filler(rng, False, []))
        if a == 1:
            sub = gen_inner(rng, b, vars_, size)
        else:
            sub = gen_outer(rng, a - 1, b, vars_, size)
        if rng.random() < 0.25 and size[0] < size[1]:
            # both branches of an if with matching nesting
            other = gen_inner(rng, b, vars_, size) if a == 1 else gen_outer(rng, a - 1, b, vars_, size)
            if rng.random() < 0.5:
                body.append(N("I", [sub, N("E", [other])]))
            else:
                third = gen_inner(rng, b, vars_, size) if a == 1 else gen_outer(rng, a - 1, b, vars_, size)
                body.append(N("I", [sub, N("e", [other]), N("E", [third])]))
        else:
            body.append(wrap(rng, sub))
    size[0] += 1
    return N("Fo" + valid_header(rng), body)


def gen_valid_kernel(rng):
    body = []
    limit = rng.choice([2, 2, 3, 4, 4, 6, 9])       # soft bound on the number of OKL loops before branching stops
    size = [0, limit]
    for _ in range(rng.choice([1, 1, 1, 2, 2, 3])):
        if body and size[0] >= limit + 2:
            break
        a = rng.choice([1, 1, 1, 2, 2, 3])
        b = rng.choice([1, 1, 1, 2, 2, 3])
        if rng.random() < 0.3:
            body.append(filler(rng, False, []))
        body.append(wrap(rng, gen_outer(rng, a, b, [], size)))
    if rng.random() < 0.2:
        body.append(filler(rng, False, []))
    return N("Kv", body)


# ------------------------------------------------------------------------------- single-rule mutations

def okl_loops(kernel, which="oib"):
    return [(n, p) for n, p in nodes(kernel) if n[0].startswith("F") and len(n[0]) > 1 and n[0][1] in which]


def set_attr(n, a):
    n[0] = "F" + a + n[0][2:]


def m_return_type(rng, k):
    k[0] = "K" + rng.choice("ifp")
    return "return_type"


def m_no_outer(rng, k):
    for n, _ in okl_loops(k, "o"):
        set_attr(n, rng.choice("ni"))
    return "no_outer"


def m_no_inner(rng, k):
    a = rng.choice("no")
    for n, _ in okl_loops(k, "i"):
        set_attr(n, a)
    return "no_inner"


def m_flip_attr(rng, k):
    ls = okl_loops(k)
    n, _ = rng.choice(ls)
    old = n[0][1]
    new = rng.choice([c for c in "oinb" if c != old])
    set_attr(n, new)
    return "attr_%s_to_%s" % (old, new)


def m_extra_loop(rng, k):
    """Wrap one OKL loop (or the body of one) into one more @inner/@outer loop: mismatch or wrong order."""
    ls = okl_loops(k)
    n, p = rng.choice(ls)
    a = rng.choice("ioi")
    if rng.random() < 0.5:
        n[1] = [N("F" + a, n[1])]
    else:
        i = p[1].index(n)
        p[1][i] = N("F" + a, [n])
    return "extra_" + a


def m_drop_loop(rng, k):
    """Replace one OKL loop by its body (one level missing on the paths through it)."""
    ls = okl_loops(k)
    n, p = rng.choice(ls)
    i = p[1].index(n)
    if rng.random() < 0.5:
        p[1][i:i + 1] = n[1]
    else:
        p[1][i] = N("B", n[1])
    return "drop_loop"


def m_break_continue(rng, k):
    ls = okl_loops(k)
    n, _ = rng.choice(ls)
    s = N(rng.choice("bc"))
    x = rng.random()
    name = "bc_direct"
    if x < 0.3:
        pass
    elif x < 0.5:
        s = N("I", [s])
        name = "bc_in_if"
    elif x < 0.6:
        s = N("I", [N("O"), N("E", [s])])
        name = "bc_in_else"
    elif x < 0.7:
        s = N("B", [N("B", [s])])
        name = "bc_in_block"
    elif x < 0.85:
        s = N("S", [s])
        name = "bc_in_switch_" + s[1][0][0]
    else:
        s = N("S", [N("I", [s])])
        name = "bc_in_switch_if_" + s[1][0][1][0][0]
    n[1].insert(rng.randint(0, len(n[1])), s)
    return name


def m_header(rng, k):
    ls = okl_loops(k, "oi")
    n, _ = rng.choice(ls)
    name, h = rng.choice(INVALID_HEADERS)
    n[0] = n[0][:2] + h
    return "header_" + name


def m_shared(rng, k):
    x = rng.random()
    kind = rng.choice("se")
    outers = okl_loops(k, "o")
    inners = okl_loops(k, "i")
    if x < 0.2:
        # declared outside every @outer loop
        k[1].insert(0, N("D" + kind + "c"))
        return "decl_%s_toplevel" % kind
    if x < 0.4 and inners:
        n, _ = rng.choice(inners)
        n[1].insert(0, N("D" + kind + "c"))
        return "decl_%s_in_inner" % kind
    if x < 0.55 and outers:
        n, _ = rng.choice(outers)
        dims = rng.choice(["", "n", "cn", "nc"])
        n[1].insert(0, N("Ds" + dims))
        return "shared_dims_" + (dims or "none")
    if x < 0.8 and outers:
        # used between @outer and @inner
        n, _ = rng.choice(outers)
        n[1].insert(0, N("D" + kind + "c"))
        n[1].insert(rng.randint(1, len(n[1])), rng.choice([N("U" + kind), N("I", [N("U" + kind)]), N("Fn", [N("U" + kind)])]))
        return "use_%s_outside_inner" % kind
    if outers:
        # valid extra declaration + use (stays valid)
        n, _ = rng.choice(outers)
        n[1].insert(0, N("D" + kind + "c"))
        for m, _ in okl_loops(n, "i")[:1]:
            m[1].append(N("U" + kind))
        return "extra_valid_decl_" + kind
    return "none"


MUTATIONS = [m_return_type, m_no_outer, m_no_inner, m_flip_attr, m_flip_attr, m_extra_loop, m_extra_loop,
             m_drop_loop, m_drop_loop, m_break_continue, m_break_continue, m_break_continue, m_header, m_header,
             m_header, m_shared, m_shared]


def gen_random_tree(rng):
    """Unstructured token soup: any nesting, any attribute anywhere."""
    toks = ["0:K" + rng.choice("vvvvvpi")]
    d = 1
    for _ in range(rng.randint(1, 14)):
        code = rng.choice(["Fo", "Fo", "Fi", "Fi", "Fi", "Fn", "Fb", "I", "E", "e", "W", "S", "B", "b", "c", "Dsc", "De",
                           "Ds", "Dsn", "Us", "Ue", "O", "Fi" + rng.choice(INVALID_HEADERS)[1]])
        toks.append("%d:%s" % (d, code))
        if code[0] in "FIEeWSB":
            d = min(d + 1, 7) if rng.random() < 0.75 else d
        else:
            d = max(1, d - rng.choice([0, 0, 0, 1, 2]))
    return " ".join(toks)


def gen_cases(rng, n):
    """Valid kernels and, for each, single-rule mutations of it."""
    cases, tags = [], []
    while len(cases) < n:
        k = gen_valid_kernel(rng)
        cases.append(flatten([k]))
        tags.append("valid")
        for _ in range(3):
            m = clone(k)
            f = rng.choice(MUTATIONS)
            tag = f(rng, m)
            if rng.random() < 0.06:
                # a translation unit with a second, untouched valid kernel before or after
                other = gen_valid_kernel(rng)
                ks = [other, m] if rng.random() < 0.5 else [m, other]
                cases.append(flatten(ks))
                tag += "+second_kernel"
            else:
                cases.append(flatten([m]))
            tags.append(tag)
        if rng.random() < 0.25:
            cases.append(gen_random_tree(rng))
            tags.append("random")
    return cases[:n], tags[:n]


def fixed_cases():
    """A deterministic batch: one minimal kernel per rule and per header shape (always present)."""
    base = "0:Kv 1:Fo 2:Fi 3:O"
    res = [base, "1:O", "0:Kv", "0:Kv 1:O"]
    for name, h in INVALID_HEADERS:
        res.append("0:Kv 1:Fo 2:Fi%s 3:O" % h)
        res.append("0:Kv 1:Fo%s 2:Fi 3:O" % h)
        res.append("0:Kv 1:Fo 2:Fi 3:Fn%s 4:O" % h)       # on a regular loop the header is free
    for r in "ifp":
        res.append("0:K%s 1:Fo 2:Fi 3:O" % r)
    res += [
        "0:Kv 1:Fo 2:O", "0:Kv 1:Fi 2:O", "0:Kv 1:Fn 2:O", "0:Kv 1:Fi 2:Fo 3:O", "0:Kv 1:Fo 2:Fi 3:Fo 4:O",
        "0:Kv 1:Fo 2:Fi 1:Fi", "0:Kv 1:Fo 2:Fi 1:Fo", "0:Kv 1:Fb 2:Fi", "0:Kv 1:Fo 2:Fb", "0:Kv 1:Fb",
        "0:Kv 1:Fo 2:Fi 2:Fi 3:Fi", "0:Kv 1:Fo 2:Fi 3:Fi 2:Fi", "0:Kv 1:Fo 2:Fi 1:Fo 2:Fi 3:Fi",
        "0:Kv 1:Fo 2:Fo 3:Fi 2:Fi", "0:Kv 1:Fo 2:Fi 2:Fo 3:Fi", "0:Kv 1:Fo 2:I 3:Fi 3:E 4:Fi 5:Fi",
        "0:Kv 1:Fo 2:I 3:Fi 3:E 4:Fi", "0:Kv 1:Fo 2:I 3:Fi 3:e 4:Fi 3:E 4:O", "0:Kv 1:Fo 2:I 3:Fi 3:E 4:O",
        "0:Kv 1:Fo 2:Fo 3:Fo 4:Fi 5:Fi 6:Fi", "0:Kv 1:I 2:Fo 3:Fi 2:E 3:Fo 4:Fo 5:Fi",
        "0:Kv 1:Fo 2:Fi 3:b", "0:Kv 1:Fo 2:Fi 3:c", "0:Kv 1:Fo 2:b 2:Fi", "0:Kv 1:Fo 2:Fi 2:I 3:c",
        "0:Kv 1:Fo 2:Fi 3:I 4:b", "0:Kv 1:Fo 2:Fi 3:I 4:O 4:E 5:c", "0:Kv 1:Fo 2:Fi 3:B 4:b",
        "0:Kv 1:Fo 2:Fi 3:S 4:b", "0:Kv 1:Fo 2:Fi 3:S 4:c", "0:Kv 1:Fo 2:S 3:c 2:Fi", "0:Kv 1:Fo 2:Fi 3:S 4:I 5:c",
        "0:Kv 1:Fo 2:Fi 3:Fn 4:b 4:c", "0:Kv 1:Fo 2:Fi 3:W 4:b 4:c", "0:Kv 1:Fo 2:Fi 3:w 4:c",
        "0:Kv 1:Fo 2:Fi 3:Fn 4:S 5:c 5:b", "0:Kv 1:Fo 2:Fi 3:S 4:Fn 5:c", "0:Kv 1:b 1:Fo 2:Fi", "0:Kv 1:c 1:Fo 2:Fi",
        "0:Kv 1:W 2:Fo 3:Fi 2:b", "0:Kv 1:Fo 2:W 3:Fi 3:c",
        "0:Kv 1:Fo 2:Dsc 2:Fi 3:Us", "0:Kv 1:Fo 2:De 2:Fi 3:Ue", "0:Kv 1:Fo 2:Ds 2:Fi", "0:Kv 1:Fo 2:Dsn 2:Fi",
        "0:Kv 1:Fo 2:Dscn 2:Fi", "0:Kv 1:Fo 2:Dsnc 2:Fi", "0:Kv 1:Fo 2:Dsccc 2:Fi 3:Us", "0:Kv 1:Fo 2:Den 2:Fi 3:Ue",
        "0:Kv 1:Dsc 1:Fo 2:Fi", "0:Kv 1:De 1:Fo 2:Fi", "0:Kv 1:Fo 2:Fi 3:Dsc", "0:Kv 1:Fo 2:Fi 3:De",
        "0:Kv 1:Fo 2:Fi 3:Fn 4:Dsc", "0:Kv 1:Fo 2:Dsc 2:Us 2:Fi", "0:Kv 1:Fo 2:De 2:Ue 2:Fi",
        "0:Kv 1:Fo 2:Dsc 2:I 3:Us 2:Fi", "0:Kv 1:Fo 2:Dsc 2:Fi 2:Us", "0:Kv 1:Fo 2:Fo 3:Dsc 3:Fi 4:Us",
        "0:Kv 1:Fo 2:Dsc 2:Fo 3:Fi 4:Us", "0:Kv 1:Fo 2:I 3:Dsc 3:Fi 4:Us", "0:Kv 1:Fo 2:Fn 3:De 3:Fi 4:Ue",
        "0:Kv 1:Fo 2:Fi 3:Dp 3:Up", "0:Kv 1:Dpc 1:Up 1:Fo 2:Fi 3:Up",
        "0:Kv 1:Fo 2:Fi 0:Kv 1:Fo 2:Fi", "0:Kv 1:Fo 2:Fi 0:Kv 1:Fo", "0:Kv 1:Fo 0:Kv 1:Fo 2:Fi", "0:Kv 1:Fo 2:Fi 0:Ki 1:Fo 2:Fi",
    ]
    return res


# ------------------------------------------------------------------------------- known findings

def _hdrs(case):
    return [t.split("/") for t in case.split() if re.match(r"^\d+:F[oib]/", t)]


def sig_continue_in_switch(case):
    return any(t.endswith(":S") for t in case.split()) and any(t.endswith(":c") for t in case.split())


def sig_both_attributes(case):
    return any(re.match(r"^\d+:Fb", t) for t in case.split())


def sig_nonpositive_step(case):
    for h in _hdrs(case):
        m = re.match(r"^B(add|sub),[LR],(-?\d+)$", h[3]) if len(h) == 4 else None
        if m and int(m.group(2)) <= 0:
            return True
    return False


def sig_void_pointer_return(case):
    return any(re.match(r"^\d+:Kp", t) for t in case.split())


def sig_update_rhs_iterator(case):
    return any(len(h) == 4 and re.match(r"^B(add|sub),R,", h[3]) for h in _hdrs(case))


def sig_depth_over_3(case):
    return sum(1 for t in case.split() if re.match(r"^\d+:F[oib]", t)) >= 5


SIGNATURES = {
    "depth_over_3": sig_depth_over_3,
    "continue_in_switch": sig_continue_in_switch,
    "both_attributes": sig_both_attributes,
    "nonpositive_step": sig_nonpositive_step,
    "void_pointer_return": sig_void_pointer_return,
    "update_rhs_iterator": sig_update_rhs_iterator,
}


def _extra_known():
    """Entries proposed for known_findings.txt live in docs/notes/C22.known (same line format) until merged."""
    res = []
    p = os.path.join(C.VERIF, "docs", "notes", "C22.known")
    if os.path.exists(p):
        for line in open(p):
            line = line.strip()
            if not line or line.startswith("#") or line.startswith("fixed:"):
                continue
            parts = [x.strip() for x in line.split("|")]
            if len(parts) >= 4 and parts[0] == PROP:
                res.append(dict(prop=parts[0], signature=parts[1], input=parts[2], what=" | ".join(parts[3:])))
    return res


_orig_load_known = C.load_known_findings


def _load_known(prop):
    res = _orig_load_known(prop)
    if prop == PROP:
        have = set(k["signature"] for k in res)
        res += [k for k in _extra_known() if k["signature"] not in have]
    return res


# ------------------------------------------------------------------------------- the check

def impl_cmd(model, impl):
    return ["sh", "-c", "%s --okl | %s" % (model, impl)]


def setup():
    C.build_lib("plain")
    C.build_lib("asan")
    C.build_driver("C22", flavour="plain")
    C.build_driver("C22", flavour="asan")
    C.coq_make(["C22/Extract.vo"])
    C.build_model(PROP)


def nontrivial(case):
    t = case.split()
    return sum(1 for x in t if re.match(r"^\d+:F[oib]", x)) >= 2


def run(run, tier, seed, replay_case=None):
    C.build_lib("plain")
    impl = C.build_driver("C22", flavour="plain")
    pr = C.coq_properties(PROP, extra_targets=["C22/Extract.vo"])
    run.add_proof(pr, CHECKER)
    run.coverage["trusted_base"] = TRUSTED
    model = C.build_model(PROP)

    rng = random.Random(seed * 7919 + 22)
    corpus = C.load_corpus(PROP)
    n = 320 if tier == "quick" else 12000
    gen, tags = gen_cases(rng, n)
    fixed_ = fixed_cases()
    cases = list(corpus) + fixed_ + gen
    alltags = ["corpus"] * len(corpus) + ["fixed"] * len(fixed_) + tags
    if replay_case is not None:
        cases, alltags = [replay_case], ["replay"]
    C.load_known_findings = _load_known
    try:
        env = C.lib_env("plain")
        D = C.Differential(run, PROP, impl_cmd(model, impl), model, env, signatures=SIGNATURES, keep_first=1,
                           model_desc="coq/C22/Model.v vs okl.cpp/oklForStatement.cpp as called by the 7 translators")
        I, R, S = D.eval(cases)
        prop_fails, corr_breaks = D.judge(cases, I, R, S, proof_failures=pr["failures"])

        # the same translators under ASan+UBSan on a sample (memory errors / UB inside the translators show as CRASH)
        if replay_case is None:
            C.build_lib("asan")
            impl_a = C.build_driver("C22", flavour="asan")
            k = 20 if tier == "quick" else 400
            srng = random.Random(seed * 31 + 5)
            sample = [c for c in fixed_[:1]] + srng.sample(gen, min(k, len(gen)))
            env_a = C.lib_env("asan")
            # LeakSanitizer off: every translator leaks a few KB of parser state per *rejected* kernel (reported in
            # docs/notes/C22.md); that is not an accept/reject disagreement and would mask them all
            env_a["ASAN_OPTIONS"] = env_a["ASAN_OPTIONS"].replace("detect_leaks=1", "detect_leaks=0")
            Da = C.Differential(run, PROP, impl_cmd(model, impl_a), model, env_a, signatures=SIGNATURES,
                                keep_first=1, jobs=min(C.NPROC, 12),
                                model_desc="coq/C22/Model.v vs the translators (asan flavour)")
            Ra, Sa = C.run_model(model, sample)
            Ia = C.run_impl_parallel(impl_cmd(model, impl_a), sample, env=env_a, jobs=min(C.NPROC, 12), timeout=1800)
            Da.judge(sample, Ia, Ra, Sa, proof_failures=[])
            run.coverage["asan_sample"] = len(sample)
    finally:
        C.load_known_findings = _orig_load_known

    cov = run.coverage
    distinct = set(c for c in cases if nontrivial(c))
    cov["distinct_nontrivial"] = len(distinct)
    cov["rule"] = ("one case = one translation unit (1-2 kernels) run through the generic parser and the 7 translators; generated "
                   "as valid kernels (1-3 outermost @outer loops, @outer depth 1-3, @inner depth 1-3, sibling and branching "
                   "nests through if/else-if/else, while, do-while, switch, blocks and regular loops, @shared/@exclusive "
                   "declarations and uses, regular loops with break/continue, all valid header shapes) each followed by three "
                   "single-rule mutations, plus token soup, plus a fixed batch with one minimal kernel per rule and per header "
                   "shape; non-trivial = at least two OKL loops; distinct = distinct case text")
    acc = sum(1 for s in S if s.endswith("1111111"))
    cov["accepted_by_rules"] = acc
    cov["rejected_by_rules"] = len(S) - acc
    tagc = {}
    for t in alltags:
        t = re.sub(r"\+second_kernel$", "", t)
        tagc[t] = tagc.get(t, 0) + 1
    cov["case_kinds"] = tagc
    cov["modes"] = MODES
    cov["samples"] = [dict(case=cases[i], impl=I[i], model=R[i], spec=S[i]) for i in (0, len(cases) // 2, len(cases) - 1)]
    run.assumptions = [
        "kernels are built from the constructs of the abstract tree (for/if/else/while/do/switch/block/break/continue, one "
        "declared or used @shared/@exclusive/plain variable per statement); @tile, @dim, @atomic, @barrier, @max_inner_dims, "
        "attribute arguments, goto and shared variables mentioned inside loop headers or conditions are not generated",
        "loop headers never move the iterator away from its bound (that defect and its repair belong to C17: fixes/C17-2.patch); "
        "constants in headers are small (no 32-bit overflow in the folded iteration count)",
        "observation = parser.succeeded() of each translator on the same source text; an accepted kernel's generated code is "
        "not compiled here",
    ]


def replay(run, path):
    case = C.replay_case_from_file(path)
    if case is None:
        print("no case in replay file")
        return 2
    globals()["run"](run, "quick", run.seed, replay_case=case)
    for s in run.coverage.get("samples", [])[:1]:
        model = C.build_model(PROP)
        rc, out, err = C.sh([model, "--okl"], input=s["case"] + "\n")
        print("replayed: %s\nOKL source: %s\nimplementation: %s   (generic parser, then %s)\nmodel:          %s\nspecification:  %s"
              % (s["case"], out.strip(), s["impl"], " ".join(MODES), s["model"], s["spec"]))
    return run.finish()
