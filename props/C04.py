"""C04 — memory-pool accounting matches its live reservations (DESIGN.md 5/C04)."""
import os, random
from vlib import common as C
from tools import C03_pool as P

PROP = "C04"
CHECKER = "make -C /verif/coq -k C04/Properties_C04.vo C04/Extract.vo  (coqc 8.16.1, full .vo)"
TRUSTED = [
    "Coq 8.16.1 kernel incl. vm_compute; no native_compute; stdlib FMapAVL (axiom-free) for buffer contents",
    "hand transcription of src/occa/internal/core/memoryPool.cpp (add/removeModeMemoryRef, reserve, resize, setAlignment) "
    "and src/core/memoryPool.cpp into coq/C03/Model.v (shared with C03), tied by the differential run of this check",
    "extraction (ExtrOcamlBasic only) + extract/C04/driver.ml (= extract/C03/driver.ml) + extract/zutil.ml",
    "drivers/C04.cpp (= drivers/C03.cpp: reads modeMemoryPool_t::reservations/offset/size through the internal headers)",
    "tools/C03_pool.py: the accounting oracle (union of alignment-rounded live ranges) applied to the implementation's observation",
    "64-bit dim_t/udim_t arithmetic is modelled in Z (no wrap-around; sizes far below 2^63)",
]

META = dict(
    level="Coq theorems: after every operation of every history of reserve/slice/release/write/resize/shrinkToFit/setAlignment "
          "on the modelled pool, reserved equals the number of byte positions covered by the live ranges once each is rounded out "
          "to the current alignment (reserved_is_union), the reservation set has as many elements as there are live handles, "
          "size >= reserved, releasing every handle gives reserved = 0, and resize below reserved fails without changing anything "
          "(invariant over unbounded histories, shared with C03). The model is tied to the C++ by running the extracted model and "
          "the real Serial pool on the same histories and comparing all counters and the reservation set after every step; the "
          "implementation's counters are also checked directly against the union recomputed from its own reported ranges.",
    note="Trusted: Coq kernel; the hand model (tie is differential, seeded); extraction; drivers; Z instead of 64-bit arithmetic. "
         "The model describes the source after fixes/C03-1..4 and fixes/C04-1; the snapshot's bookkeeping is kept as variants with "
         "*_refuted theorems (intersection instead of subtraction; reserved > size after setAlignment on an empty pool).",
    technique="Coq invariant over histories (measure of a union of intervals by counting) + extracted-model/implementation "
              "differential correspondence",
    design_ref="DESIGN.md section 5, C04")

SIGNATURES = {}


class Diff(C.Differential):
    """the specification line restricted to what C04 speaks about (token, tag, number of live handles)"""

    def eval(self, lines, parallel=True):
        I, R, S = super().eval(lines, parallel)
        return I, R, [P.spec_C04(s) for s in S]


def setup():
    C.build_driver("C04", flavour="asan")
    C.build_model(PROP)


def run(run, tier, seed, replay_case=None):
    C.build_lib("asan")
    impl = C.build_driver("C04", flavour="asan")
    pr = C.coq_properties(PROP, dirs=["C04", "C03", "lib"], extra_targets=["C04/Extract.vo"])
    run.add_proof(pr, CHECKER)
    run.coverage["trusted_base"] = TRUSTED
    model = C.build_model(PROP)

    rng = random.Random(seed * 7919 + 4)
    corpus = C.load_corpus(PROP)
    n = 1500 if tier == "quick" else 15000
    n = int(os.environ.get("VERIF_N", n))            # smaller batches for seeded-bug trials on a loaded machine
    cases = list(corpus) + list(P.SEED_CASES) + P.gen_cases(rng, n, tier)
    if replay_case is not None:
        cases = [replay_case]
    env = C.lib_env("asan")
    D = Diff(run, PROP, [impl], model, env, view=P.view_C04, signatures=SIGNATURES, keep_first=0,
             model_desc="coq/C03/Model.v vs src/occa/internal/core/memoryPool.cpp (add/removeModeMemoryRef, resize, setAlignment)")
    I, R, S = D.eval(cases)
    D.judge(cases, I, R, S, proof_failures=pr["failures"], max_report=(3 if "VERIF_N" in os.environ else 12))

    cov = run.coverage
    cov["distinct_nontrivial"] = len(set(c for c in cases if P.nontrivial(c)))
    cov["rule"] = ("seeded pool histories (see C03): reserve sizes around alignment multiples, slices at unaligned offsets incl. "
                   "empty ones, releases of parents with live slices, resize incl. below reserved(), shrinkToFit, alignment "
                   "changes mid-history; 35% end by releasing everything; non-trivial = at least two reserves and one "
                   "release/resize/shrink/re-align; distinct = distinct case text")
    k = len(cases)
    cov["samples"] = [dict(case=cases[i], impl=I[i], model=R[i], spec=S[i]) for i in sorted(set((0, k // 2, k - 1)))]
    cov["op_mix"] = {name: sum(1 for c in cases for t in c.split() if t[0] == ch)
                     for name, ch in (("reserve", "r"), ("slice", "s"), ("release", "f"), ("write", "w"),
                                      ("resize", "z"), ("shrinkToFit", "k"), ("setAlignment", "a"))}
    cov["resize_below_reserved_cases"] = sum(1 for o in I if " ERR " in o and "z:" in o)
    run.assumptions = ["one Serial device and one pool per history; one occa::memory handle per reservation",
                       "the accounting oracle is evaluated on the implementation's own observation (its ranges, its counters)"]


def replay(run, path):
    case = C.replay_case_from_file(path)
    if case is None:
        print("no case in replay file")
        return 2
    globals()["run"](run, "quick", run.seed, replay_case=case)
    for s in run.coverage.get("samples", [])[:1]:
        print("replayed: %s\nimplementation: %s\nmodel:          %s\nspecification:  %s" % (s["case"], s["impl"], s["model"], s["spec"]))
    return run.finish()
